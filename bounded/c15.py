"""BOUNDED stand-in for C15: hydroelastic contact polygons lie on the contact plane inside both tetrahedra.

Runs the REAL find_contact_surface / intersect_tetrahedron_pair / compute_contact_force / contact_forces on an enumerated set of
scenes and checks every clause of the property with oracles that do not use the library:
  * barycentric coordinates from an own np.linalg.solve on [[p0 p1 p2 p3],[1 1 1 1]]; borderline values (between -1e-6 and the
    property's -1e-9) are re-decided in exact rational arithmetic on the float data (fractions.Fraction), so the verdict does not
    depend on the conditioning of the solve;
  * plane membership n.x = d, own plane basis, own shoelace area, full O(m^2) convexity test (every vertex on the inner side of every
    edge line after removing duplicate vertices);
  * order independence by calling the real intersect_tetrahedron_pair with the two tetrahedra exchanged and comparing vertex sets;
  * disjointness certified by a separating plane of the two convex vertex sets (sound: a positive gap proves that no pair of
    tetrahedra overlaps).
Tolerances: barycentric >= -1e-9 (property text), lengths 1e-9*L with L = max(1, largest feature size or centre distance).

Contracts (stable): hydroelastic.intersect_tetrahedron_pair[<family>] with family in
    stacked_cubes | stacked_<k1>_<k2> | random_<k1>_<k2> | lattice_<k1>_<k2> | coincident_<k> | nested_<k1>_<k2>
    | single_pair_random | single_pair_face_parallel | single_pair_lattice
  hydroelastic.contact_forces[disjoint_<k1>_<k2>]
Obligations (stable): no_exception, plane_unit_normal, vertex_on_plane, vertex_in_tetra1, vertex_in_tetra2 (suffix _point_polygon when all
  polygon vertices coincide = the library's same-tetrahedron branch), equal_pressure, polygon_convex, deterministic,
  area_nonneg, polygon_area, force_along_normal, pressure_nonneg, order_independent, disjoint_gives_zero, terminates
"""
import itertools
import math
import os
import sys
import time
from fractions import Fraction

for _v in ("OMP_NUM_THREADS", "OPENBLAS_NUM_THREADS", "MKL_NUM_THREADS", "NUMBA_NUM_THREADS"):
    os.environ.setdefault(_v, "1")

import numpy as np

import _common as C

C.stub_visualization()

BARY_TOL = 1e-9
K_LEN = 1e-9
KINDS = ["sphere", "ellipsoid", "cube", "box", "cylinder", "capsule"]
FLAT = ["cube", "box", "cylinder"]


# ------------------------------------------------------------------------------------------------- bodies
def body_params(kind, s, rng=None, variant=0):
    """parameters of a factory body of feature size s; variant selects the mesh class of the factory"""
    if kind == "sphere":
        return dict(radius=0.5 * s, order=1 + variant % 2)
    if kind == "ellipsoid":
        return dict(radii=[0.5 * s, 0.25 * s, 0.375 * s] if variant % 2 == 0 else [0.3 * s, 0.5 * s, 0.5 * s], order=1 + (variant // 2) % 2)
    if kind == "cube":
        return dict(size=s)
    if kind == "box":
        return dict(size=[[s, 0.5 * s, 0.75 * s], [s, s, 0.5 * s], [0.5 * s, s, s], [s, s, s]][variant % 4])
    if kind == "cylinder":          # long / medium / short
        r, length = [(0.3 * s, s), (0.5 * s, s), (0.5 * s, 0.4 * s)][variant % 3]
        return dict(radius=r, length=length, nv=[6, 8, 5][variant % 3])
    if kind == "capsule":
        return dict(radius=0.25 * s, height=0.5 * s, nv=[6, 4, 7][variant % 3])
    raise ValueError(kind)


def make_body(kind, par, T, E):
    from distance3d.hydroelastic_contact import RigidBody
    T = np.ascontiguousarray(np.array(T, dtype=float))
    if kind == "sphere":
        if np.array_equal(T[:3, :3], np.eye(3)):
            rb = RigidBody.make_sphere(T[:3, 3].copy(), par["radius"], par["order"])
        else:       # RigidBody.make_sphere takes a centre only; a rotated sphere body is the factory mesh with a general pose
            from distance3d.hydroelastic_contact._tetra_mesh_creation import make_tetrahedral_sphere
            rb = RigidBody(T, *make_tetrahedral_sphere(par["radius"], par["order"]))
    elif kind == "ellipsoid":
        rb = RigidBody.make_ellipsoid(T, np.array(par["radii"], dtype=float), par["order"])
    elif kind == "cube":
        rb = RigidBody.make_cube(T, par["size"])
    elif kind == "box":
        rb = RigidBody.make_box(T, np.array(par["size"], dtype=float))
    elif kind == "cylinder":
        rb = RigidBody.make_cylinder(T, par["radius"], par["length"], 2 * math.pi * par["radius"] / (par["nv"] - 0.5))
    elif kind == "capsule":
        rb = RigidBody.make_capsule(T, par["radius"], par["height"], 2 * math.pi * par["radius"] / (par["nv"] + 0.5))
    else:
        raise ValueError(kind)
    rb.youngs_modulus = float(E)
    return rb


def half_extent(kind, par):
    """half extents of the body-frame bounding box (closed form)"""
    if kind == "sphere":
        return np.full(3, par["radius"])
    if kind == "ellipsoid":
        return np.array(par["radii"], dtype=float)
    if kind == "cube":
        return np.full(3, 0.5 * par["size"])
    if kind == "box":
        return 0.5 * np.array(par["size"], dtype=float)
    if kind == "cylinder":
        return np.array([par["radius"], par["radius"], 0.5 * par["length"]])
    if kind == "capsule":
        return np.array([par["radius"], par["radius"], 0.5 * par["height"] + par["radius"]])


# ------------------------------------------------------------------------------------------------- oracles
def bary_solve(tet, pts):
    A = np.vstack((np.asarray(tet, dtype=float).T, np.ones((1, 4))))
    rhs = np.vstack((np.asarray(pts, dtype=float).T, np.ones((1, len(pts)))))
    return np.linalg.solve(A, rhs).T          # (m, 4)


def _det3(a, b, c):
    return a[0] * (b[1] * c[2] - b[2] * c[1]) - a[1] * (b[0] * c[2] - b[2] * c[0]) + a[2] * (b[0] * c[1] - b[1] * c[0])


def bary_exact_min(tet, p):
    """exact minimum barycentric coordinate of the float point p in the float tetrahedron (rational arithmetic); None if flat"""
    q = [[Fraction(float(x)) for x in v] for v in tet]
    x = [Fraction(float(v)) for v in p]
    sub = lambda u, w: [u[k] - w[k] for k in range(3)]
    d = _det3(sub(q[1], q[0]), sub(q[2], q[0]), sub(q[3], q[0]))
    if d == 0:
        return None
    vals = []
    for i in range(4):
        r = [x if k == i else q[k] for k in range(4)]
        vals.append(_det3(sub(r[1], r[0]), sub(r[2], r[0]), sub(r[3], r[0])) / d)
    return float(min(vals))


def min_bary(tet, pts):
    """(min barycentric coordinate over the points, index of the worst point, decided?)"""
    try:
        b = bary_solve(tet, pts)
    except np.linalg.LinAlgError:
        return 0.0, 0, False
    m = b.min(axis=1)
    k = int(np.argmin(m))
    val = float(m[k])
    if -1e-6 < val < -1e-12:                 # borderline: decide exactly
        ex = [bary_exact_min(tet, p) for p in pts]
        if any(e is None for e in ex):
            return val, k, False
        k = int(np.argmin(ex))
        val = ex[k]
    return val, k, True


def own_basis(n):
    a = np.array([1.0, 0, 0]) if abs(n[0]) < 0.6 else np.array([0, 1.0, 0])
    u = np.cross(n, a)
    u /= np.linalg.norm(u)
    return u, np.cross(n, u)


def dedupe(q, tol):
    keep = []
    for p in q:
        if not keep or np.linalg.norm(p - keep[-1]) > tol:
            keep.append(p)
    while len(keep) > 1 and np.linalg.norm(keep[0] - keep[-1]) <= tol:
        keep.pop()
    return np.array(keep).reshape(-1, 2)


def shoelace(q):
    x, y = q[:, 0], q[:, 1]
    return 0.5 * float(np.sum(x * np.roll(y, -1) - np.roll(x, -1) * y))


def convexity_defect(q, tol):
    """largest distance by which a vertex lies on the OUTER side of an edge line (0 for a convex, consistently ordered polygon);
    q are 2-D vertices in order.  Duplicates are removed first; < 3 remaining vertices or zero area count as degenerate (0)."""
    q = dedupe(q, tol)
    if len(q) < 3:
        return 0.0
    a = shoelace(q)
    sgn = 1.0 if a >= 0 else -1.0
    worst = 0.0
    m = len(q)
    for i in range(m):
        e = q[(i + 1) % m] - q[i]
        le = np.linalg.norm(e)
        d = sgn * (e[0] * (q[:, 1] - q[i, 1]) - e[1] * (q[:, 0] - q[i, 0])) / le
        worst = max(worst, float(-d.min()))
    return worst


def hausdorff(A, B):
    D = np.linalg.norm(A[:, None, :] - B[None, :, :], axis=2)
    return float(max(D.min(axis=1).max(), D.min(axis=0).max()))


def separating_gap(W1, W2, extra_dirs):
    """max over candidate directions of min(W2.n) - max(W1.n) (or the reverse): positive => the convex hulls are disjoint"""
    c = W2.mean(axis=0) - W1.mean(axis=0)
    dirs = [c] + list(extra_dirs)
    best = -math.inf
    for n in dirs:
        ln = np.linalg.norm(n)
        if ln == 0:
            continue
        n = n / ln
        a, b = W1 @ n, W2 @ n
        best = max(best, b.min() - a.max(), a.min() - b.max())
    return best


FIB = C.fibonacci_sphere(200)


def n_parallel_faces(t1, t2, n):
    """diagnostic for triage: how many of the 8 tetrahedron faces are parallel to the plane normal n (own cross products)"""
    n = np.asarray(n, dtype=float)
    if not np.all(np.isfinite(n)) or abs(np.linalg.norm(n) - 1) > 1e-6:
        return -1
    cnt = 0
    for t in (np.asarray(t1, dtype=float), np.asarray(t2, dtype=float)):
        for a, b, c in ((0, 1, 2), (0, 1, 3), (0, 2, 3), (1, 2, 3)):
            m = np.cross(t[b] - t[a], t[c] - t[a])
            lm = np.linalg.norm(m)
            if lm > 0 and np.linalg.norm(np.cross(m / lm, n)) <= 1e-9:
                cnt += 1
    return cnt


def width(p):
    """second largest singular value of the centred vertex set: ~0 for a polygon that is a point or a segment"""
    if p is None or len(p) < 3:
        return 0.0
    sv = np.linalg.svd(p - p.mean(axis=0), compute_uv=False)
    return float(sv[1]) if len(sv) > 1 else 0.0


# ------------------------------------------------------------------------------------------------- clause checks for one polygon
class Ctx:
    def __init__(self, contract, inp, L):
        self.contract, self.inp, self.L = contract, inp, L
        self.failures = []
        self.seen = set()
        self.undecided = 0
        self.polygons = 0
        self.nontrivial_polys = 0
        self.point_polygons = 0
        self.worst_bary = 0.0

    def fail(self, obligation, detail, extra=None):
        if obligation in self.seen:           # one failure per obligation and scene; the count is what matters upstream
            return
        self.seen.add(obligation)
        inp = dict(self.inp)
        if extra:
            inp.update(extra)
        self.failures.append(dict(contract=self.contract, obligation=obligation, detail=detail, input=inp,
                                  faces_parallel_to_plane=(extra or {}).get("faces_parallel_to_plane")))


def check_polygon(ctx, t1, e1, E1, t2, e2, E2, plane, poly, area=None, force=None, tag=""):
    """clauses for ONE reported intersecting pair; everything is expressed in one common frame"""
    L = ctx.L
    tol = K_LEN * L
    ctx.polygons += 1
    plane = np.asarray(plane, dtype=float)
    poly = np.asarray(poly, dtype=float)
    ex = dict(tetrahedron1=np.asarray(t1).tolist(), potentials1=np.asarray(e1).tolist(), tetrahedron2=np.asarray(t2).tolist(),
              potentials2=np.asarray(e2).tolist(), plane=plane.tolist(), polygon=poly.tolist(), pair=tag)
    if poly.ndim != 2 or poly.shape[1] != 3 or len(poly) < 3 or not np.all(np.isfinite(poly)) or not np.all(np.isfinite(plane)):
        ctx.fail("vertex_on_plane", f"pair {tag}: reported as intersecting with polygon of shape {poly.shape} / non-finite entries", ex)
        return
    n, d = plane[:3], plane[3]
    ex["faces_parallel_to_plane"] = n_parallel_faces(t1, t2, n)
    if abs(np.linalg.norm(n) - 1.0) > 1e-9:
        ctx.fail("plane_unit_normal", f"pair {tag}: |normal| = {np.linalg.norm(n)!r}", ex)
        return
    # on the plane
    off = np.abs(poly @ n - d)
    if off.max() > tol:
        ctx.fail("vertex_on_plane", f"pair {tag}: vertex {poly[int(off.argmax())].tolist()} is {off.max():.3e} off the reported plane", ex)
    # inside both tetrahedra (own barycentric solve).  A polygon whose vertices all coincide is what the library returns from its
    # 'same tetrahedron' branch (contact_plane(...)[1] is True); it gets its own obligation name because the mechanism differs.
    point = bool(np.max(np.linalg.norm(poly - poly[0], axis=1)) <= tol)
    ctx.point_polygons += int(point)
    for name, tet in (("vertex_in_tetra1", t1), ("vertex_in_tetra2", t2)):
        val, k, decided = min_bary(tet, poly)
        if not decided:
            ctx.undecided += 1
        elif val < -BARY_TOL:
            ctx.fail(name + ("_point_polygon" if point else ""), f"pair {tag}: polygon vertex {poly[k].tolist()} has barycentric coordinate {val:.6g} "
                     f"(< -1e-9){' [all polygon vertices coincide: same-tetrahedron branch]' if point else ''}", ex)
        if decided:
            ctx.worst_bary = min(ctx.worst_bary, val)
    # the reported plane is the contact plane of the model: equal pressure E1*phi1 = E2*phi2 at every polygon vertex (linear fields
    # evaluated with the own barycentric solve).  Not checked for point polygons of the same-tetrahedron branch (no plane exists there).
    if not point:
        try:
            p1 = float(E1) * (bary_solve(t1, poly) @ np.asarray(e1, dtype=float))
            p2 = float(E2) * (bary_solve(t2, poly) @ np.asarray(e2, dtype=float))
            pm = max(float(E1) * float(np.max(np.abs(e1))), float(E2) * float(np.max(np.abs(e2))), 1e-300)
            k = int(np.argmax(np.abs(p1 - p2)))
            if abs(p1[k] - p2[k]) > 1e-7 * pm * max(1.0, float(np.max(np.abs(bary_solve(t1, poly)))), float(np.max(np.abs(bary_solve(t2, poly))))):
                ctx.fail("equal_pressure", f"pair {tag}: at polygon vertex {poly[k].tolist()} the pressures are E1*phi1 = {p1[k]:.9g} and E2*phi2 = {p2[k]:.9g}: "
                         "the reported plane is not the equal-pressure plane", ex)
        except np.linalg.LinAlgError:
            ctx.undecided += 1
    # convex, non-negative area
    u, w = own_basis(n)
    q = np.stack((poly @ u, poly @ w), axis=1)
    defect = convexity_defect(q, tol)
    convex = defect <= tol
    if not convex:
        ctx.fail("polygon_convex", f"pair {tag}: a vertex lies {defect:.3e} outside an edge line of the polygon (not convex / not in order)", ex)
    a_mine = abs(shoelace(dedupe(q, tol))) if len(dedupe(q, tol)) >= 3 else 0.0
    if a_mine > 1e-12 * L * L:
        ctx.nontrivial_polys += 1
    if area is not None:
        if not np.isfinite(area) or area < 0:
            ctx.fail("area_nonneg", f"pair {tag}: reported area {area!r}", ex)
        elif convex and abs(area - a_mine) > 1e-9 * L * L + 1e-7 * a_mine:
            ctx.fail("polygon_area", f"pair {tag}: reported area {area!r} vs shoelace area {a_mine!r} of the reported (convex) polygon", ex)
    # force along the normal, non-negative pressure
    if force is not None:
        force = np.asarray(force, dtype=float)
        pmax = max(float(E1) * float(np.max(np.abs(e1))), float(E2) * float(np.max(np.abs(e2))), 1e-300)
        fscale = pmax * max(a_mine, float(area) if area is not None and np.isfinite(area) else 0.0, 1e-12 * L * L)
        fn = float(force @ n)
        if not np.all(np.isfinite(force)):
            ctx.fail("force_along_normal", f"pair {tag}: force {force.tolist()}", ex)
        else:
            lat = np.linalg.norm(force - fn * n)
            if lat > 1e-9 * max(np.linalg.norm(force), fscale):
                ctx.fail("force_along_normal", f"pair {tag}: force {force.tolist()} has a component {lat:.3e} orthogonal to the normal {n.tolist()}", ex)
            if fn < -1e-8 * fscale:
                a = area if area else a_mine
                ctx.fail("pressure_nonneg", f"pair {tag}: force.normal = {fn:.6g}, i.e. mean pressure {fn / a if a else float('nan'):.6g} < 0 "
                         f"(vertex potentials of tetrahedron 1: {np.asarray(e1).tolist()}, E1 = {E1})", ex)


def check_order(ctx, t1, e1, E1, t2, e2, E2, tag="", reported=None):
    """the polygon must not depend on the order of the two tetrahedra (real function called both ways)"""
    import distance3d.hydroelastic_contact as hc
    L = ctx.L
    tol = K_LEN * L
    t1 = np.ascontiguousarray(t1, dtype=float)
    t2 = np.ascontiguousarray(t2, dtype=float)
    e1 = np.ascontiguousarray(e1, dtype=float)
    e2 = np.ascontiguousarray(e2, dtype=float)
    X = hc.barycentric_transforms(np.stack((t1, t2)))
    X1, X2 = np.ascontiguousarray(X[0]), np.ascontiguousarray(X[1])
    ex = dict(tetrahedron1=t1.tolist(), potentials1=e1.tolist(), tetrahedron2=t2.tolist(), potentials2=e2.tolist(), E1=float(E1), E2=float(E2), pair=tag)
    try:
        ia, da = hc.intersect_tetrahedron_pair(t1, e1, X1, t2, e2, X2, float(E1), float(E2))
        ib, db = hc.intersect_tetrahedron_pair(t2, e2, X2, t1, e1, X1, float(E2), float(E1))
    except Exception as e:
        ctx.fail("no_exception", f"pair {tag}: intersect_tetrahedron_pair: {type(e).__name__}: {e}", ex)
        return None
    pa = np.asarray(da[1], dtype=float) if ia else None
    pb = np.asarray(db[1], dtype=float) if ib else None
    try:
        ex["faces_parallel_to_plane"] = n_parallel_faces(t1, t2, np.asarray(da[0], dtype=float)[:3])
    except Exception:
        ex["faces_parallel_to_plane"] = -1

    def diam(p):
        return 0.0 if p is None or len(p) == 0 else float(np.max(np.linalg.norm(p - p.mean(axis=0), axis=1)))
    if ia != ib:
        p = pa if ia else pb
        if len(p) and np.all(np.isfinite(p)) and (diam(p) <= 1e-6 * L or width(p) <= tol):
            ctx.undecided += 1            # a polygon of diameter <= 1e-6 L (the tolerance of the library's own plane-crossing test) or of
            #                               zero width (a segment, area 0, force 0) appearing in one order only: not decidable as a
            #                               dependence of 'the polygon' on the order
        else:
            ctx.fail("order_independent", f"pair {tag}: [{ex['faces_parallel_to_plane']} faces parallel to the plane] intersecting={ia} for (A,B) but {ib} for (B,A); the polygon found in one order "
                     f"has {len(p)} vertices, diameter {diam(p):.3e}", dict(ex, polygon=p.tolist()))
    elif ia:
        if not (np.all(np.isfinite(pa)) and np.all(np.isfinite(pb))):
            ctx.fail("order_independent", f"pair {tag}: non-finite polygon", ex)
        else:
            h = hausdorff(pa, pb)
            if h > tol:
                point = diam(pa) <= tol or diam(pb) <= tol
                if h <= 1e-6 * L and diam(pa) <= 1e-6 * L and diam(pb) <= 1e-6 * L:
                    ctx.undecided += 1
                else:
                    ctx.fail("order_independent" + ("_point_polygon" if point else ""),
                             f"pair {tag}: [{ex['faces_parallel_to_plane']} faces parallel to the plane] polygons for (A,B) and (B,A) differ by {h:.3e} (Hausdorff distance of the vertex sets; "
                             f"{len(pa)} vs {len(pb)} vertices){' [all vertices of a polygon coincide: same-tetrahedron branch]' if point else ''}",
                             dict(ex, polygon_ab=pa.tolist(), polygon_ba=pb.tolist()))
        if reported is not None and np.all(np.isfinite(pa)) and np.all(np.isfinite(reported)) and (len(reported) != len(pa) or not np.allclose(reported, pa, rtol=0, atol=tol)):
            # the same real function on the same data: anything but equality means the call is not a function of its inputs
            ctx.fail("deterministic", f"pair {tag}: a second call with identical arguments returned a different polygon "
                     f"({len(reported)} vs {len(pa)} vertices)", dict(ex, polygon_first=np.asarray(reported).tolist(), polygon_second=pa.tolist()))
    return ia, da


# ------------------------------------------------------------------------------------------------- scenes
def scene_L(k1, p1, T1, k2, p2, T2):
    return max(1.0, 2 * float(half_extent(k1, p1).max()), 2 * float(half_extent(k2, p2).max()), float(np.linalg.norm(T1[:3, 3] - T2[:3, 3])))


def run_surface(task):
    """one find_contact_surface scene"""
    import distance3d.hydroelastic_contact as hc
    k1, p1, T1, E1 = task["k1"], task["p1"], np.array(task["T1"]), task["E1"]
    k2, p2, T2, E2 = task["k2"], task["p2"], np.array(task["T2"]), task["E2"]
    L = scene_L(k1, p1, T1, k2, p2, T2)
    inp = dict(body1=dict(kind=k1, **p1, pose=T1.tolist(), youngs_modulus=E1), body2=dict(kind=k2, **p2, pose=T2.tolist(), youngs_modulus=E2))
    ctx = Ctx(task["contract"], inp, L)
    res = dict(evals=1, nontrivial=False, sample=None)
    try:
        b1, b2 = make_body(k1, p1, T1, E1), make_body(k2, p2, T2, E2)
        cs = hc.find_contact_surface(b1, b2)
        P1, P2 = b1.tetrahedra_points, b2.tetrahedra_points
        Q1, Q2 = b1.tetrahedra_potentials, b2.tetrahedra_potentials
        n_pairs = len(cs.intersecting_tetrahedra1)
        if bool(cs.intersection) != (n_pairs > 0) or len(cs.contact_polygons) != n_pairs or len(cs.contact_planes) != n_pairs:
            ctx.fail("no_exception", f"inconsistent ContactSurface: intersection={cs.intersection}, {n_pairs} pairs, {len(cs.contact_polygons)} polygons")
    except Exception as e:
        ctx.fail("no_exception", f"find_contact_surface: {type(e).__name__}: {e}")
        return finish(ctx, res)
    idx = list(range(n_pairs))
    if n_pairs > task["max_pairs"]:        # deterministic sub-sample of the reported pairs
        idx = [int(i) for i in np.random.default_rng(task["seed"]).choice(n_pairs, size=task["max_pairs"], replace=False)]
    for k in idx:
        i, j = int(cs.intersecting_tetrahedra1[k]), int(cs.intersecting_tetrahedra2[k])
        check_polygon(ctx, P1[i], Q1[i], E1, P2[j], Q2[j], E2, cs.contact_planes[k], cs.contact_polygons[k], area=float(cs.contact_areas[k]),
                      force=cs.contact_forces[k], tag=f"({i},{j})")
    for k in idx[: task["max_order"]]:
        i, j = int(cs.intersecting_tetrahedra1[k]), int(cs.intersecting_tetrahedra2[k])
        check_order(ctx, P1[i], Q1[i], E1, P2[j], Q2[j], E2, tag=f"({i},{j})", reported=np.asarray(cs.contact_polygons[k]))
    res["nontrivial"] = ctx.nontrivial_polys > 0
    res["sample"] = dict(contract=task["contract"], body1=inp["body1"], body2=inp["body2"], reported_pairs=n_pairs, checked_pairs=len(idx),
                         positive_area_polygons=ctx.nontrivial_polys, total_area=float(np.sum(cs.contact_areas)) if n_pairs else 0.0,
                         worst_barycentric=ctx.worst_bary)
    return finish(ctx, res)


def run_disjoint(task):
    """bodies whose convex hulls are separated by a certified plane: intersection=False and zero wrenches"""
    import distance3d.hydroelastic_contact as hc
    k1, p1, T1, E1 = task["k1"], task["p1"], np.array(task["T1"]), task["E1"]
    k2, p2, T2, E2 = task["k2"], task["p2"], np.array(task["T2"]), task["E2"]
    L = scene_L(k1, p1, T1, k2, p2, T2)
    inp = dict(body1=dict(kind=k1, **p1, pose=T1.tolist(), youngs_modulus=E1), body2=dict(kind=k2, **p2, pose=T2.tolist(), youngs_modulus=E2))
    ctx = Ctx(task["contract"], inp, L)
    res = dict(evals=1, nontrivial=False, sample=None)
    try:
        b1, b2 = make_body(k1, p1, T1, E1), make_body(k2, p2, T2, E2)
        W1 = b1.vertices_ @ T1[:3, :3].T + T1[:3, 3]
        W2 = b2.vertices_ @ T2[:3, :3].T + T2[:3, 3]
        dirs = list(T1[:3, :3].T) + list(T2[:3, :3].T) + [np.cross(a, b) for a in T1[:3, :3].T for b in T2[:3, :3].T] + list(FIB)
        gap = separating_gap(W1, W2, dirs)
        if gap <= 1e-9 * L:
            ctx.undecided += 1            # no certificate: nothing is claimed about this scene
            return finish(ctx, res)
        # does the narrow phase see candidate pairs at all (tetrahedron AABBs in the frame of body 2, own computation)
        M = np.linalg.inv(T2) @ T1
        A1 = (b1.vertices_ @ M[:3, :3].T + M[:3, 3])[b1.tetrahedra_]
        A2 = b2.vertices_[b2.tetrahedra_]
        lo1, hi1, lo2, hi2 = A1.min(axis=1), A1.max(axis=1), A2.min(axis=1), A2.max(axis=1)
        cand = int(np.sum(np.all((lo1[:, None, :] <= hi2[None, :, :]) & (hi1[:, None, :] >= lo2[None, :, :]), axis=2)))
        out = hc.contact_forces(b1, b2)
        inter, w12, w21 = out[0], np.asarray(out[1], dtype=float), np.asarray(out[2], dtype=float)
        if bool(inter):
            ctx.fail("disjoint_gives_zero", f"intersection=True although the vertex sets are separated by a plane with gap {gap:.6g} "
                     f"({cand} candidate pairs in the broad phase)")
        if not (np.all(np.isfinite(w12)) and np.all(np.isfinite(w21))) or max(np.abs(w12).max(), np.abs(w21).max()) > 0.0:
            ctx.fail("disjoint_gives_zero", f"non-zero wrenches {w12.tolist()} / {w21.tolist()} for bodies separated by a gap of {gap:.6g}")
        res["nontrivial"] = cand > 0
        res["sample"] = dict(contract=task["contract"], body1=inp["body1"], body2=inp["body2"], certified_gap=gap, broad_phase_candidates=cand,
                             intersection=bool(inter))
    except Exception as e:
        ctx.fail("no_exception", f"contact_forces: {type(e).__name__}: {e}")
    return finish(ctx, res)


def run_single(task):
    """single tetrahedron pairs with linear potentials through the exported intersect_tetrahedron_pair / compute_contact_force"""
    import distance3d.hydroelastic_contact as hc
    rng = np.random.default_rng(task["seed"])
    fam = task["family"]
    res = dict(evals=0, nontrivial=0, sample=None)
    allf, und, polys, worst, pp = [], 0, 0, 0.0, 0
    for rep in range(task["n"]):
        E1, E2 = [float(x) for x in 10.0 ** rng.uniform(-2, 2, size=2)] if rng.random() < 0.7 else [float(rng.choice([1e-2, 1.0, 1e2])) for _ in range(2)]
        if fam == "single_pair_random":
            s = 10.0 ** rng.uniform(-2, 2)
            t1 = rng.normal(size=(4, 3)) * s
            t2 = rng.normal(size=(4, 3)) * s + rng.normal(size=3) * 0.3 * s
            e1 = rng.uniform(0, s, size=4) * (rng.random(4) < 0.7)
            e2 = rng.uniform(0, s, size=4) * (rng.random(4) < 0.7)
        elif fam == "single_pair_lattice":
            s = float(rng.choice([0.01, 0.5, 1.0, 100.0]))
            t1 = rng.integers(-2, 3, size=(4, 3)).astype(float) * s
            t2 = rng.integers(-2, 3, size=(4, 3)).astype(float) * s
            e1 = rng.integers(0, 3, size=4).astype(float) * s
            e2 = rng.integers(0, 3, size=4).astype(float) * s
        else:   # single_pair_face_parallel: a boundary face (potential 0) of each tetrahedron is parallel to the contact plane, as
            #     for a box resting on a box: body 1 below with surface z = a, body 2 above with surface z = -b
            s = 10.0 ** rng.uniform(-2, 2)
            lat = rng.random() < 0.5
            g = (lambda k: rng.integers(-2, 3, size=k).astype(float) * 0.5) if lat else (lambda k: rng.normal(size=k))
            a, b = (0.25, 0.25) if lat else rng.uniform(0.02, 0.4, size=2)
            tri1 = np.column_stack((g(3), g(3), np.full(3, a)))
            tri2 = np.column_stack((g(3), g(3), np.full(3, -b)))
            ap1 = np.array([*g(2) * 0.5, a - (1.0 if lat else rng.uniform(0.5, 2))])
            ap2 = np.array([*g(2) * 0.5, -b + (1.0 if lat else rng.uniform(0.5, 2))])
            R = C.CUBE[rng.integers(24)] if rng.random() < 0.7 else C.random_rotation(rng)
            sh = rng.integers(-2, 3, size=3).astype(float) if lat else rng.normal(size=3)
            t1 = (np.vstack((tri1, ap1)) @ R.T + sh) * s
            t2 = (np.vstack((tri2, ap2)) @ R.T + sh) * s
            pr = rng.permutation(4)
            pq = rng.permutation(4)
            e1 = np.array([0, 0, 0, s * (1.0 if lat else rng.uniform(0.5, 2))])[pr]
            e2 = np.array([0, 0, 0, s * (1.0 if lat else rng.uniform(0.5, 2))])[pq]
            t1, t2 = t1[pr], t2[pq]
        t1, t2 = np.ascontiguousarray(t1), np.ascontiguousarray(t2)

        def vol(t):
            return abs(np.linalg.det(t[1:] - t[0])) / 6.0
        d1 = np.max(np.linalg.norm(t1[:, None] - t1[None], axis=2))
        d2 = np.max(np.linalg.norm(t2[:, None] - t2[None], axis=2))
        if vol(t1) < 1e-3 * d1 ** 3 or vol(t2) < 1e-3 * d2 ** 3 or e1.max() <= 0 or e2.max() <= 0:
            continue                          # degenerate tetrahedra / zero fields are outside the property's domain
        L = max(1.0, float(np.max(np.abs(np.vstack((t1, t2))))) * 2)
        inp = dict(tetrahedron1=t1.tolist(), potentials1=e1.tolist(), E1=E1, tetrahedron2=t2.tolist(), potentials2=e2.tolist(), E2=E2)
        ctx = Ctx(f"hydroelastic.intersect_tetrahedron_pair[{fam}]", inp, L)
        res["evals"] += 1
        r = check_order(ctx, t1, e1, E1, t2, e2, E2)
        if r is not None and r[0]:
            plane, poly = r[1]
            try:
                com, force, area, tri = hc.compute_contact_force(t1, e1, np.ascontiguousarray(plane), np.ascontiguousarray(poly), E1)
                check_polygon(ctx, t1, e1, E1, t2, e2, E2, plane, poly, area=float(area), force=force)
            except Exception as e:
                ctx.fail("no_exception", f"compute_contact_force: {type(e).__name__}: {e}")
            if ctx.nontrivial_polys:
                res["nontrivial"] += 1
                if res["sample"] is None:
                    res["sample"] = dict(contract=ctx.contract, **inp, plane=np.asarray(plane).tolist(), polygon=np.asarray(poly).tolist(), area=float(area))
        allf += ctx.failures
        pp += ctx.point_polygons
        und += ctx.undecided
        polys += ctx.polygons
        worst = min(worst, ctx.worst_bary)
    res.update(failures=allf, undecided=und, polygons=polys, worst_bary=worst, point_polygons=pp)
    return res


def finish(ctx, res):
    res.update(failures=ctx.failures, undecided=ctx.undecided, polygons=ctx.polygons, worst_bary=ctx.worst_bary, point_polygons=ctx.point_polygons)
    res["nontrivial"] = int(bool(res["nontrivial"]))
    return res


def run_task(task):
    try:
        return dict(surface=run_surface, disjoint=run_disjoint, single=run_single)[task["type"]](task)
    except Exception as e:
        import traceback
        return dict(evals=0, nontrivial=0, sample=None, failures=[], undecided=1, polygons=0, worst_bary=0.0, point_polygons=0,
                    harness_error=f"{type(e).__name__}: {e} :: {traceback.format_exc()[-500:]}")


# ------------------------------------------------------------------------------------------------- domain
def youngs(rng):
    if rng.random() < 0.5:
        return float(rng.choice([1e-2, 1.0, 1e2]))
    return float(10.0 ** rng.uniform(-2, 2))


def fam_name(prefix, k1, k2):
    if prefix == "stacked" and k1 == "cube" and k2 == "cube":
        return "hydroelastic.intersect_tetrahedron_pair[stacked_cubes]"
    return f"hydroelastic.intersect_tetrahedron_pair[{prefix}_{k1}_{k2}]"


def sphere_pose(kind, T):
    """poses are used as given for every kind (rotated sphere bodies are built from the factory mesh, see make_body)"""
    return np.array(T, dtype=float)


def build_tasks(tier, rng):
    thorough = tier == "thorough"
    tasks = []
    mp, mo = (400, 60) if not thorough else (1500, 200)

    def add_surface(contract, k1, p1, T1, E1, k2, p2, T2, E2):
        T1, T2 = sphere_pose(k1, T1), sphere_pose(k2, T2)
        tasks.append(dict(type="surface", contract=contract, k1=k1, p1=p1, T1=np.asarray(T1).tolist(), E1=E1, k2=k2, p2=p2, T2=np.asarray(T2).tolist(),
                          E2=E2, max_pairs=mp, max_order=mo, seed=int(rng.integers(2 ** 31))))

    # ---- the canonical reconnaissance scene: unit cubes stacked with dz = 0.9
    add_surface(fam_name("stacked", "cube", "cube"), "cube", dict(size=1.0), np.eye(4), 1.0, "cube", dict(size=1.0), C.pose(np.eye(3), [0, 0, 0.9]), 1.0)

    # ---- axis-aligned stacking: a body with flat faces resting on another, cube-group rotations of both bodies
    n_stack = 12 if not thorough else 80
    for k1, k2 in itertools.product(FLAT, FLAT):
        for rep in range(n_stack):
            s1 = float(rng.choice([0.01, 0.1, 1.0, 1.0, 2.0, 100.0]))
            s2 = s1 * float(rng.choice([0.5, 1.0, 1.0, 2.0]))
            p1, p2 = body_params(k1, s1, variant=int(rng.integers(12))), body_params(k2, s2, variant=int(rng.integers(12)))
            h1, h2 = half_extent(k1, p1), half_extent(k2, p2)
            # flat faces: cylinders only have them along z, so keep the cylinder axis on the stacking axis
            ax = int(rng.integers(3))
            G = [g for g in C.CUBE if abs(g[ax, 2]) == 1] if "cylinder" in (k1, k2) else C.CUBE
            R1, R2 = G[rng.integers(len(G))], G[rng.integers(len(G))]
            a1, a2 = np.abs(R1) @ h1, np.abs(R2) @ h2         # world half extents
            pen = float(rng.choice([0.02, 0.1, 0.1, 0.25, 0.5])) * 2 * min(a1[ax], a2[ax])
            t = np.zeros(3)
            t[ax] = (a1[ax] + a2[ax] - pen) * rng.choice([-1, 1])
            for o in range(3):
                if o != ax:
                    t[o] = float(rng.choice([0.0, 0.0, 0.25, -0.5, 0.3])) * min(a1[o], a2[o])
            base = rng.integers(-2, 3, size=3).astype(float) * s1 if rng.random() < 0.5 else np.zeros(3)
            add_surface(fam_name("stacked", k1, k2), k1, p1, C.pose(R1, base), youngs(rng), k2, p2, C.pose(R2, base + t), youngs(rng))

    # ---- lattice poses of all kinds (cube-group rotations, half-integer offsets), incl. round bodies
    n_lat = 4 if not thorough else 25
    for k1, k2 in itertools.product(KINDS, KINDS):
        if k1 in FLAT and k2 in FLAT:
            continue
        for rep in range(n_lat):
            s = float(rng.choice([0.01, 1.0, 1.0, 100.0]))
            p1, p2 = body_params(k1, s, variant=int(rng.integers(12))), body_params(k2, s, variant=int(rng.integers(12)))
            t = rng.integers(-1, 2, size=3).astype(float) * 0.25 * s
            if not np.any(t):
                t[2] = 0.25 * s
            add_surface(fam_name("lattice", k1, k2), k1, p1, C.pose(C.CUBE[rng.integers(24)], np.zeros(3)), youngs(rng),
                        k2, p2, C.pose(C.CUBE[rng.integers(24)], t), youngs(rng))

    # ---- random relative poses (general rotations of BOTH bodies)
    n_rnd = 5 if not thorough else 30
    for k1, k2 in itertools.product(KINDS, KINDS):
        for rep in range(n_rnd):
            s1 = float(10.0 ** rng.uniform(-2, 2)) if rng.random() < 0.5 else 1.0
            s2 = s1 * float(rng.uniform(0.5, 2.0))
            p1, p2 = body_params(k1, s1, variant=int(rng.integers(12))), body_params(k2, s2, variant=int(rng.integers(12)))
            r1, r2 = float(half_extent(k1, p1).min()), float(half_extent(k2, p2).min())
            dirn = rng.normal(size=3)
            dirn /= np.linalg.norm(dirn)
            t1 = rng.normal(size=3) * s1 * rng.choice([0.0, 1.0, 10.0])
            t2 = t1 + dirn * (r1 + r2) * rng.uniform(0.3, 0.95)
            add_surface(fam_name("random", k1, k2), k1, p1, C.pose(C.random_rotation(rng), t1), youngs(rng), k2, p2, C.pose(C.random_rotation(rng), t2), youngs(rng))

    # ---- coincident identical bodies and nested bodies
    for k in KINDS:
        for rep in range(2 if not thorough else 8):
            s = float(rng.choice([0.01, 1.0, 100.0]))
            p = body_params(k, s, variant=int(rng.integers(12)))
            T = C.pose(np.eye(3), np.zeros(3)) if rep % 2 == 0 else C.lattice_or_random_pose(rng, s)
            add_surface(f"hydroelastic.intersect_tetrahedron_pair[coincident_{k}]", k, p, T, youngs(rng), k, p, T.copy(), youngs(rng))
    for k1, k2 in itertools.product(KINDS, KINDS):
        for rep in range(1 if not thorough else 4):
            s = float(rng.choice([0.01, 1.0, 100.0]))
            p1, p2 = body_params(k1, 0.2 * s, variant=int(rng.integers(12))), body_params(k2, s, variant=int(rng.integers(12)))
            T2 = C.lattice_or_random_pose(rng, s)
            off = rng.integers(-1, 2, size=3).astype(float) * 0.05 * s
            T1 = T2 @ C.pose(C.CUBE[rng.integers(24)] if rep % 2 == 0 else C.random_rotation(rng), off)
            add_surface(fam_name("nested", k1, k2), k1, p1, T1, youngs(rng), k2, p2, T2, youngs(rng))

    # ---- certified disjoint bodies: far apart, and close (candidate pairs in the broad phase) with a small certified gap
    n_dis = 6 if not thorough else 40
    for k1, k2 in itertools.product(KINDS, KINDS):
        for rep in range(n_dis):
            s = float(rng.choice([0.01, 1.0, 1.0, 100.0]))
            p1, p2 = body_params(k1, s, variant=int(rng.integers(12))), body_params(k2, s * float(rng.choice([0.5, 1.0, 2.0])), variant=int(rng.integers(12)))
            h1, h2 = half_extent(k1, p1), half_extent(k2, p2)
            mode = rep % 3
            if mode == 0:       # aligned, separated along an axis by an exact small gap
                R1, R2 = C.CUBE[rng.integers(24)], C.CUBE[rng.integers(24)]
                a1, a2 = np.abs(R1) @ h1, np.abs(R2) @ h2
                ax = int(rng.integers(3))
                t = rng.integers(-1, 2, size=3).astype(float) * 0.25 * s
                t[ax] = (a1[ax] + a2[ax]) * (1 + float(rng.choice([1e-6, 1e-3, 0.1])))
                T1, T2 = C.pose(R1, np.zeros(3)), C.pose(R2, t)
            elif mode == 1:     # general rotations, bounding spheres overlap (so AABBs of tetrahedra can overlap), hull gap decides
                R1, R2 = C.random_rotation(rng), C.random_rotation(rng)
                dirn = rng.normal(size=3)
                dirn /= np.linalg.norm(dirn)
                c1, c2 = np.linalg.norm(h1), np.linalg.norm(h2)
                T1, T2 = C.pose(R1, rng.normal(size=3) * s), None
                T2 = C.pose(R2, T1[:3, 3] + dirn * (c1 + c2) * rng.uniform(0.75, 1.0))
            else:               # far apart
                T1 = C.lattice_or_random_pose(rng, s)
                T2 = C.lattice_or_random_pose(rng, s)
                T2[:3, 3] = T1[:3, 3] + np.array([3.0, -4.0, 12.0]) * s * float(rng.choice([1.0, 10.0]))
            tasks.append(dict(type="disjoint", contract=f"hydroelastic.contact_forces[disjoint_{k1}_{k2}]", k1=k1, p1=p1, T1=sphere_pose(k1, T1).tolist(),
                              E1=youngs(rng), k2=k2, p2=p2, T2=sphere_pose(k2, T2).tolist(), E2=youngs(rng)))

    # ---- designed disjoint scenes: a cube and a body placed diagonally off one of its vertical edges (tetrahedron AABBs overlap, hulls do
    #      not), at the height where the linear potential of the cube's top-face tetrahedra, extended to the centre of body 2, equals
    #      the potential of body 2 at its centre (E1 (s/2 - z0) = E2 rho2): the equal-pressure plane of such a pair passes through the
    #      origin of the frame of body 2, a measure-zero but perfectly regular placement (all numbers are multiples of 1/8)
    for k2 in KINDS:
        for variant in range(3):
            for a in ([0.375, 0.4, 0.45] if thorough else [0.375, 0.4]):
                for s in ([1.0, 2.0] if thorough else [1.0]):
                    p1, p2 = dict(size=s), body_params(k2, s, variant=variant)
                    rho2 = dict(sphere=lambda q: q["radius"], ellipsoid=lambda q: min(q["radii"]), cube=lambda q: 0.5 * q["size"], box=lambda q: 0.5 * min(q["size"]),
                                cylinder=lambda q: min(q["radius"], 0.5 * q["length"]), capsule=lambda q: q["radius"])[k2](p2)
                    h2 = half_extent(k2, p2)
                    off = 0.5 * s + a * 2 * float(max(h2[0], h2[1]))
                    T2 = C.pose(np.eye(3), [off, off, 0.5 * s - rho2])
                    tasks.append(dict(type="disjoint", contract=f"hydroelastic.contact_forces[disjoint_cube_{k2}]", k1="cube", p1=p1, T1=np.eye(4).tolist(), E1=1.0,
                                      k2=k2, p2=p2, T2=T2.tolist(), E2=1.0))

    # ---- single tetrahedron pairs
    n_chunks, per = (16, 400) if not thorough else (64, 2000)
    for fam in ("single_pair_random", "single_pair_face_parallel", "single_pair_lattice"):
        for c in range(n_chunks):
            tasks.append(dict(type="single", family=fam, n=per, seed=int(rng.integers(2 ** 31))))
    return tasks


def pmap_partial(fn, tasks, jobs=16, timeout=600):
    """like _common.pmap but task-wise: returns (results, pending) where results[i] is None for the tasks that had not returned at
    the deadline.  A native hang blocks one worker with one task while the others drain the queue, so 'few pending, rest done' is
    the signature of a hang; 'many pending' means the time budget was too small for this machine load (reported as undecided)."""
    import multiprocessing as mp
    ctx = mp.get_context("fork")
    pool = ctx.Pool(min(jobs, max(1, len(tasks))))
    handles = [pool.apply_async(fn, (t,)) for t in tasks]
    results = [None] * len(tasks)
    pending = set(range(len(tasks)))
    deadline = time.time() + timeout
    while pending and time.time() < deadline:
        for i in list(pending):
            if handles[i].ready():
                try:
                    results[i] = handles[i].get(0)
                except Exception as e:           # the worker function itself never raises; this is a pickling / pool problem
                    results[i] = dict(pool_error=f"{type(e).__name__}: {e}")
                pending.discard(i)
        time.sleep(0.05)
    pool.terminate()
    pool.join()
    return results, sorted(pending)


def order_failures(failures):
    counts, first, rest = {}, [], []
    for f in failures:
        k = f["contract"] + " | " + f["obligation"]
        counts[k] = counts.get(k, 0) + 1
        (first if counts[k] == 1 else rest).append(f)
    return first + rest, dict(sorted(counts.items()))


def warm_up():
    """compile / load the jitted functions once in the parent so that the forked workers inherit them"""
    import distance3d.hydroelastic_contact as hc
    b1 = make_body("cube", dict(size=1.0), np.eye(4), 1.0)
    b2 = make_body("cube", dict(size=1.0), C.pose(C.random_rotation(np.random.default_rng(0)), [0.1, 0.2, 0.7]), 1.0)
    hc.contact_forces(b1, b2)


def main():
    a = C.args()
    t0 = time.time()
    rng = np.random.default_rng(a.seed)
    extra = {}
    try:
        warm_up()
    except Exception as e:
        extra["warm_up_error"] = f"{type(e).__name__}: {e}"
    tasks = build_tasks(a.tier, rng)
    cost = lambda t: {"surface": 2, "single": 3, "disjoint": 1}[t["type"]]
    tasks.sort(key=lambda t: -cost(t))
    results, pending = pmap_partial(run_task, tasks, jobs=a.jobs, timeout=(1150 if a.tier == "thorough" else 140) - (time.time() - t0))
    failures = []
    if pending:
        extra["unfinished_tasks"] = len(pending)
        if len(pending) <= a.jobs:        # hang signature, see pmap_partial
            for i in pending:
                t = tasks[i]
                failures.append(dict(contract=t.get("contract", f"hydroelastic.intersect_tetrahedron_pair[{t.get('family')}]"), obligation="terminates",
                                     detail="the task did not return before the watchdog deadline while all other tasks finished",
                                     input={k: v for k, v in t.items() if k not in ("max_pairs", "max_order")}))
    results = [r for r in results if r is not None]
    evals = nontrivial = undecided = polys = ppolys = 0
    worst = 0.0
    samples, seen, herr = [], set(), []
    for r in results:
        if "pool_error" in r:
            herr.append(r["pool_error"])
            continue
        evals += r["evals"]
        nontrivial += r["nontrivial"]
        undecided += r["undecided"]
        polys += r["polygons"]
        ppolys += r.get("point_polygons", 0)
        worst = min(worst, r["worst_bary"])
        failures += r["failures"]
        if r.get("harness_error"):
            herr.append(r["harness_error"])
        s = r["sample"]
        if s:
            fam = s["contract"].split("[")[1].split("_")[0]
            if fam not in seen:
                seen.add(fam)
                samples.append(s)
    if herr:
        extra["harness_errors"] = herr[:5]
        extra["n_harness_errors"] = len(herr)
    npar = {}
    for f in failures:       # triage aid: failures by obligation and by 'does a tetrahedron face lie parallel to the contact plane'
        fp = f.pop("faces_parallel_to_plane", None)
        key = f["obligation"] + (" | parallel_face" if (fp or 0) > 0 else " | no_parallel_face" if fp == 0 else " | n/a")
        npar[key] = npar.get(key, 0) + 1
    extra["failures_by_obligation_and_parallel_face"] = dict(sorted(npar.items()))
    failures, extra["failure_counts"] = order_failures(failures)
    import distance3d
    extra["library"] = os.path.dirname(distance3d.__file__)
    by_type = {}
    for t in tasks:
        key = t["contract"].split("[")[1].split("_")[0] if "contract" in t else t["family"]
        by_type[key] = by_type.get(key, 0) + (t["n"] if t["type"] == "single" else 1)
    C.emit(t0, evals, nontrivial,
           "a contact scene is non-trivial when at least one reported tetrahedron pair has a polygon of area > 1e-12 L^2 (own shoelace area); "
           "a single tetrahedron pair when the real function reports a polygon of positive area; a disjoint scene when the separating-plane "
           "certificate holds AND the tetrahedron AABBs give at least one broad-phase candidate pair (the narrow phase actually runs)",
           samples, failures,
           f"tier {a.tier}: scenes per family {by_type}; bodies from RigidBody.make_sphere/ellipsoid/cube/box/cylinder/capsule (sphere/ellipsoid order 1-2, "
           "cylinder long/medium/short with 5-8 vertices per circle, capsule 4-7, boxes in 4 size classes), feature sizes {0.01,0.1,1,2,100} and "
           "log-uniform in [1e-2,1e2], Young's moduli {1e-2,1,1e2} and log-uniform in [1e-2,1e2]; families: axis-aligned stacking of flat-faced "
           "bodies (cube-group rotations, penetration 2-50 %, lateral offsets 0, 1/4, 0.3, -1/2), lattice poses of all 36 kind pairs, random "
           "general rotations of both bodies, coincident identical and nested bodies, certified-disjoint pairs (exact gaps 1e-6..0.1 relative, "
           "general rotations with overlapping bounding spheres, far apart, and a cube with a body placed diagonally off its edge at the height where the two potential fields agree at the centre of body 2); single tetrahedron pairs with linear potentials: random, lattice "
           "coordinates {-2..2}*s, and pairs whose zero-potential faces are parallel to the contact plane",
           undecided=undecided + (len(pending) if len(pending) > a.jobs else 0), polygons_checked=polys, point_polygons_same_branch=ppolys, worst_barycentric_coordinate=worst, **extra)


if __name__ == "__main__":
    main()
